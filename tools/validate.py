#!/usr/bin/env python3
import json, sys, glob, jsonschema
m=json.load(open('/verif/MANIFEST.json'))
jsonschema.validate(m, json.load(open('/root/.vp/MANIFEST.schema.json')))
print("manifest valid; checks:", [c["property_id"] for c in m["checks"]])
sch=json.load(open('/root/.vp/EVIDENCE.schema.json'))
for f in sorted(glob.glob('/verif/evidence/C*.json')):
    jsonschema.validate(json.load(open(f)), sch)
    print("evidence valid:", f)
