#!/bin/sh
# usage: tools/trymut.sh <patch-file> <prop> [prop...]   -- applies patch to a scratch copy of /repo and runs the checks on it
set -e
P=$1; shift
D=$(mktemp -d /var/tmp/mut.XXXXXX)
trap 'rm -rf "$D"' EXIT
rsync -a --exclude .git /repo/ "$D/"
(cd "$D" && patch -p1 -s < "$P")
export GOFLAGS=-mod=mod GOPROXY=off GOSUMDB=off GOTOOLCHAIN=local GOWORK=off
(cd "$D" && go build ./... ) || { echo "MUTANT DOES NOT BUILD"; exit 3; }
for prop in "$@"; do
  ${STACKCHECK:-/verif/bin/stackcheck} -verif /verif -repo "$D" -prop "$prop" -evidence "$D/ev.json" | grep -E "^(VIOLATION|property=)|violated|undecided" | sed "s#$D#SCRATCH#g" | cut -c1-600
done
