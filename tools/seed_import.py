#!/usr/bin/env python3
"""usage: seed_import.py <incoming-dir> <prop> <mN> <confirm-json> [detected_by...]
Copies a confirmed mutant into /verif/seeded/<prop>-<mN>/ with meta.json."""
import json, os, shutil, sys
src, prop, m, confirm = sys.argv[1:5]
dst = "/verif/seeded/%s-%s" % (prop, m)
os.makedirs(dst, exist_ok=True)
for f in ("patch.diff", "demo_test.go", "notes.md"):
    shutil.copy(os.path.join(src, f), os.path.join(dst, f))
notes = open(os.path.join(src, "notes.md")).read()
meta = {
  "property": prop,
  "source": "written by an independent sub-agent given only the property text and a scratch worktree",
  "needs_to_manifest": "see notes.md (first paragraph)",
  "confirmed": json.loads(confirm),
  "confirm_cmd": "tools/seed_confirm.sh seeded/%s-%s" % (prop, m),
  "detected_by": sys.argv[5:],
}
json.dump(meta, open(os.path.join(dst, "meta.json"), "w"), indent=1)
print("imported", dst)
