#!/bin/sh
# usage: tools/allprops.sh <repo-dir>   -- runs every claimed property's quick rules on <repo-dir>; prints failures only
R=$1
for p in C01 C02 C03 C04 C05 C06 C07 C08 C09 C10 C11 C12 C13 C14 C15 C16 C17 C18 C19 C20; do
  out=$(/verif/bin/stackcheck -verif /verif -repo "$R" -prop $p -evidence "$R/ev-$p.json" 2>&1)
  if [ $? -ne 0 ]; then echo "== $p"; echo "$out" | grep -E '\[(violated|undecided)\]' | cut -c1-${CUT:-260} | head -${HEAD:-4}; fi
done
