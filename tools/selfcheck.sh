#!/bin/sh
# usage: tools/selfcheck.sh <prop>
# Thorough tier, second half: validates the check of <prop> against every seeded
# mutant kept for that property and against the revert of every repo fix recorded
# for it (known_findings.jsonl, status fixed).  Each variant is built in a scratch
# copy outside /repo and /verif and removed at once; up to 6 variants run in
# parallel, each under a 4-minute analysis budget.  Prints one line per variant;
# the lines are informational (they judge the checker, not the repository) and do
# not change the exit status of the property check.
P=$1
cd /verif
export GOFLAGS=-mod=mod GOPROXY=off GOSUMDB=off GOTOOLCHAIN=local GOWORK=off
export STACKCHECK_BUDGET_SEC=240
one_mutant() {
  d=$1; P=$2
  id=$(basename "$d")
  D=$(mktemp -d /var/tmp/sc.XXXXXX)
  rsync -a --exclude .git /repo/ "$D/"
  if ! (cd "$D" && patch -p1 -s --no-backup-if-mismatch < "/verif/$d/patch.diff" >/dev/null 2>&1); then echo "SELF-CHECK $id NOAPPLY (the mutant no longer applies to this tree)"; rm -rf "$D"; return; fi
  if ! (cd "$D" && go build ./... >/dev/null 2>&1); then echo "SELF-CHECK $id NOBUILD"; rm -rf "$D"; return; fi
  /verif/bin/stackcheck -verif /verif -repo "$D" -prop "$P" -evidence "$D/ev.json" >/dev/null 2>&1
  if [ $? -eq 1 ]; then echo "SELF-CHECK $id detected"; else echo "SELF-CHECK $id MISSED"; fi
  rm -rf "$D"
}
one_revert() {
  c=$1; P=$2
  W=$(mktemp -d /var/tmp/sr.XXXXXX)
  # a plain copy with the commit reverted by patch (no git worktree: several run in parallel)
  rsync -a --exclude .git /repo/ "$W/"
  if git -C /repo show "$c" | (cd "$W" && patch -R -p1 -s --no-backup-if-mismatch >/dev/null 2>&1) && (cd "$W" && go build ./... >/dev/null 2>&1); then
    /verif/bin/stackcheck -verif /verif -repo "$W" -prop "$P" -evidence "$W/ev.json" >/dev/null 2>&1
    if [ $? -eq 1 ]; then echo "SELF-CHECK revert-$c detected"; else echo "SELF-CHECK revert-$c MISSED"; fi
  else
    echo "SELF-CHECK revert-$c CONFLICT (later fixes touch the same lines)"
  fi
  rm -rf "$W"
}
N=0
for d in seeded/$P-m*/; do
  [ -d "$d" ] || continue
  one_mutant "${d%/}" "$P" &
  N=$((N+1)); [ $((N % 6)) -eq 0 ] && wait
done
for c in $(python3 -c "
import json
for l in open('/verif/known_findings.jsonl'):
    l=l.strip()
    if not l: continue
    e=json.loads(l)
    if e.get('status')=='fixed' and e.get('property')=='$P': print(e['commit'])
"); do
  one_revert "$c" "$P" &
  N=$((N+1)); [ $((N % 6)) -eq 0 ] && wait
done
wait
exit 0
