#!/bin/sh
# usage: tools/selfcheck.sh <prop>
# Thorough tier, second half: validates the check of <prop> against every seeded
# mutant kept for that property and against the revert of every repo fix recorded
# for it (known_findings.jsonl, status fixed).  Each variant is built in a scratch
# copy outside /repo and /verif and removed at once.  Prints one line per variant;
# the lines are informational (they judge the checker, not the repository) and do
# not change the exit status of the property check.
P=$1
cd /verif
export GOFLAGS=-mod=mod GOPROXY=off GOSUMDB=off GOTOOLCHAIN=local GOWORK=off
for d in seeded/$P-m*/; do
  [ -d "$d" ] || continue
  id=$(basename "$d")
  D=$(mktemp -d /var/tmp/sc.XXXXXX)
  rsync -a --exclude .git /repo/ "$D/"
  if ! (cd "$D" && patch -p1 -s --no-backup-if-mismatch < "/verif/$d/patch.diff" >/dev/null 2>&1); then echo "SELF-CHECK $id NOAPPLY (the mutant no longer applies to this tree)"; rm -rf "$D"; continue; fi
  if ! (cd "$D" && go build ./... >/dev/null 2>&1); then echo "SELF-CHECK $id NOBUILD"; rm -rf "$D"; continue; fi
  /verif/bin/stackcheck -verif "$D" -repo "$D" -prop "$P" -evidence "$D/ev.json" >/dev/null 2>&1
  if [ $? -eq 1 ]; then echo "SELF-CHECK $id detected"; else echo "SELF-CHECK $id MISSED"; fi
  rm -rf "$D"
done
for c in $(python3 -c "
import json
for l in open('/verif/known_findings.jsonl'):
    l=l.strip()
    if not l: continue
    e=json.loads(l)
    if e.get('status')=='fixed' and e.get('property')=='$P': print(e['commit'])
"); do
  W=$(mktemp -d /var/tmp/sr.XXXXXX); rmdir "$W"
  git -C /repo worktree add -q --detach "$W" HEAD 2>/dev/null || { echo "SELF-CHECK revert-$c SKIPPED (no git worktree)"; continue; }
  if (cd "$W" && git revert --no-edit -n "$c" >/dev/null 2>&1) && (cd "$W" && go build ./... >/dev/null 2>&1); then
    /verif/bin/stackcheck -verif "$W" -repo "$W" -prop "$P" -evidence "$W/ev.json" >/dev/null 2>&1
    if [ $? -eq 1 ]; then echo "SELF-CHECK revert-$c detected"; else echo "SELF-CHECK revert-$c MISSED"; fi
  else
    echo "SELF-CHECK revert-$c CONFLICT (later fixes touch the same lines)"
  fi
  git -C /repo worktree remove --force "$W" >/dev/null 2>&1
done
exit 0
