#!/usr/bin/env python3
"""usage: design_matrix.py <matrix-output>  -- rewrites the catch table of DESIGN.md (between the MATRIX markers)
from the output of tools/seeded_matrix.sh and records the verdicts in seeded/*/meta.json."""
import re, json, sys
lines = open(sys.argv[1]).read().splitlines()
rows = []
for l in lines:
    m = re.match(r'^(C\d\d-m\d+) (\w+)(?: (.*))?$', l)
    if not m:
        continue
    mid, status, rest = m.group(1), m.group(2), m.group(3) or ''
    rule = ''
    mm = re.search(r'\[(?:violated|undecided)\] ([^:]+:[^:]+)', rest)
    if mm:
        rule = mm.group(1)
    rows.append((mid, status, rule))
out = ["| mutant | what it changes (from the author's notes) | verdict of the property's check | first rule reporting |", "|---|---|---|---|"]
for mid, status, rule in rows:
    notes = open('/verif/seeded/%s/notes.md' % mid).read().strip().splitlines()
    desc = notes[0].lstrip('# ').strip()
    if len(desc) < 25 and len(notes) > 1:
        desc = desc + ' ' + notes[1].lstrip('-* ').strip()
    desc = re.sub(r'\s+', ' ', desc)[:150]
    out.append("| %s | %s | %s | %s |" % (mid, desc.replace('|', '/'), status.lower(), rule.replace('|', '/')))
    mp = '/verif/seeded/%s/meta.json' % mid
    meta = json.load(open(mp))
    meta['detected_by'] = [rule] if status == 'DETECTED' else []
    meta['matrix_verdict'] = status
    json.dump(meta, open(mp, 'w'), indent=1)
table = "\n".join(out)
p = '/verif/DESIGN.md'
s = open(p).read()
b, e = '<!-- MATRIX-BEGIN -->', '<!-- MATRIX-END -->'
i, j = s.index(b), s.index(e)
s = s[:i + len(b)] + "\n" + table + "\n" + s[j:]
open(p, 'w').write(s)
det = sum(1 for r in rows if r[1] == 'DETECTED')
print("rows", len(rows), "detected", det, "not detected:", [r[0] for r in rows if r[1] != 'DETECTED'])
