#!/bin/sh
# usage: tools/seed_confirm.sh <mutant-dir> [-race]
# Confirms in a scratch worktree of /repo: builds, existing suite passes with the patch,
# demo fails with the patch, demo passes without.  Prints a JSON object.
set -u
M=$1; RACE=${2:-}
export GOFLAGS=-mod=mod GOPROXY=off GOSUMDB=off GOTOOLCHAIN=local GOWORK=off
W=$(mktemp -d /var/tmp/seedwt.XXXXXX); rmdir "$W"
git -C /repo worktree add -q --detach "$W" HEAD || exit 2
trap 'git -C /repo worktree remove --force "$W" >/dev/null 2>&1' EXIT
BASE=$(git -C /repo rev-parse --short HEAD)
cd "$W"
git apply "$M/patch.diff" 2>/dev/null && APPLY=true || APPLY=false
BUILD=false; SUITE=false; DEMO_FAILS=false; DEMO_PASSES_CLEAN=false
if $APPLY; then
  go build ./... >/dev/null 2>&1 && BUILD=true
  go test -vet=off -count=1 ./... >/dev/null 2>&1 && SUITE=true
  cp "$M/demo_test.go" ./zz_seeded_demo_test.go
  if go test $RACE -vet=off -count=1 -timeout 120s -run TestSeeded ./... >/dev/null 2>&1; then DEMO_FAILS=false; else DEMO_FAILS=true; fi
  rm -f zz_seeded_demo_test.go
  git checkout -q -- . && git clean -fdq
fi
cp "$M/demo_test.go" ./zz_seeded_demo_test.go
go test $RACE -vet=off -count=1 -timeout 120s -run TestSeeded ./... >/dev/null 2>&1 && DEMO_PASSES_CLEAN=true
rm -f zz_seeded_demo_test.go
echo "{\"base_commit\":\"$BASE\",\"applies\":$APPLY,\"builds\":$BUILD,\"suite_passes_with_patch\":$SUITE,\"demo_fails_with_patch\":$DEMO_FAILS,\"demo_passes_on_clean_tree\":$DEMO_PASSES_CLEAN,\"race_flag\":\"$RACE\"}"
