#!/bin/sh
# usage: tools/seed_intake2.sh <prop> <offset> [round]  -- later-round intake: /tmp/out<round>-<prop>/m<i> becomes seeded/<prop>-m<i+offset> (round defaults to 2)
P=$1; OFF=${2:-3}; R=${3:-2}
mkdir -p /var/tmp/incoming
rm -rf /var/tmp/incoming/out$R-$P
cp -r /tmp/out$R-$P /var/tmp/incoming/out$R-$P || exit 2
git -C /repo worktree remove --force /tmp/wt$R-$P 2>/dev/null
rm -rf /tmp/out$R-$P
RACE=""
[ "$P" = "C11" ] && RACE="-race"; [ -n "$NORACE" ] && RACE=""; [ "$P" = "C10" ] && [ -z "$NORACE" ] && RACE="-race"
for d in /var/tmp/incoming/out$R-$P/m*; do
  i=$(basename $d | tr -d m)
  m="m$((i+OFF))"
  J=$(/verif/tools/seed_confirm.sh $d $RACE)
  echo "$P-$m $J" | cut -c1-220
  case "$J" in
   *'"applies":true,"builds":true,"suite_passes_with_patch":true,"demo_fails_with_patch":true,"demo_passes_on_clean_tree":true'*)
     python3 /verif/tools/seed_import.py $d $P $m "$J" >/dev/null
     echo "   check: $(/verif/tools/trymut.sh /verif/seeded/$P-$m/patch.diff $P 2>&1 | grep -v 'KNOWN' | grep -E 'violated|undecided' | head -1 | cut -c1-230)" ;;
   *) echo "NOT CONFIRMED: $P-$m" ;;
  esac
done
