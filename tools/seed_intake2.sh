#!/bin/sh
# usage: tools/seed_intake2.sh <prop> <offset>  -- second-round intake: /tmp/out2-<prop>/m<i> becomes seeded/<prop>-m<i+offset>
P=$1; OFF=${2:-3}
mkdir -p /var/tmp/incoming
rm -rf /var/tmp/incoming/out2-$P
cp -r /tmp/out2-$P /var/tmp/incoming/out2-$P || exit 2
git -C /repo worktree remove --force /tmp/wt2-$P 2>/dev/null
rm -rf /tmp/out2-$P
RACE=""
[ "$P" = "C10" ] && RACE="-race"
for d in /var/tmp/incoming/out2-$P/m*; do
  i=$(basename $d | tr -d m)
  m="m$((i+OFF))"
  J=$(/verif/tools/seed_confirm.sh $d $RACE)
  echo "$P-$m $J" | cut -c1-220
  case "$J" in
   *'"applies":true,"builds":true,"suite_passes_with_patch":true,"demo_fails_with_patch":true,"demo_passes_on_clean_tree":true'*)
     python3 /verif/tools/seed_import.py $d $P $m "$J" >/dev/null
     echo "   check: $(/verif/tools/trymut.sh /verif/seeded/$P-$m/patch.diff $P 2>&1 | grep -v 'KNOWN' | grep -E 'violated|undecided' | head -1 | cut -c1-230)" ;;
   *) echo "NOT CONFIRMED: $P-$m" ;;
  esac
done
