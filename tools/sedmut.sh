#!/bin/sh
# usage: tools/sedmut.sh <file> <sed-expr> <prop> [prop...]  -- applies a sed edit to a scratch copy of /repo, checks it builds + suite passes, runs the checks
F=$1; E=$2; shift 2
D=$(mktemp -d /var/tmp/smut.XXXXXX)
trap 'rm -rf "$D"' EXIT
rsync -a --exclude .git /repo/ "$D/"
sed -i "$E" "$D/$F"
if diff -q /repo/$F "$D/$F" >/dev/null; then echo "SED DID NOT CHANGE ANYTHING"; exit 3; fi
export GOFLAGS=-mod=mod GOPROXY=off GOSUMDB=off GOTOOLCHAIN=local GOWORK=off
(cd "$D" && go build ./... ) || { echo "MUTANT DOES NOT BUILD"; exit 3; }
if [ -z "$NOSUITE" ]; then (cd "$D" && go test -vet=off -count=1 ./... >/dev/null 2>&1) && echo "suite: pass" || echo "suite: FAIL (mutant would be caught by tests)"; fi
for prop in "$@"; do
  /verif/bin/stackcheck -verif /verif -repo "$D" -prop "$prop" -evidence "$D/ev.json" | grep -E "^(property=)|violated|undecided" | sed "s#$D#SCRATCH#g" | cut -c1-${CUT:-300}
done
