#!/bin/sh
# Applies every seeded mutant to a scratch copy of /repo and runs the check of
# its property; prints one line per mutant: <id> <DETECTED|MISSED|NOAPPLY|NOCHECK> <first violation key>
cd /verif
export GOFLAGS=-mod=mod GOPROXY=off GOSUMDB=off GOTOOLCHAIN=local GOWORK=off
for d in seeded/*/; do
  id=$(basename "$d")
  prop=$(python3 -c "import json;print(json.load(open('$d/meta.json'))['property'])")
  if ! python3 -c "import json,sys;sys.exit(0 if any(c['property_id']=='$prop' for c in json.load(open('MANIFEST.json'))['checks']) else 1)"; then echo "$id NOCHECK"; continue; fi
  D=$(mktemp -d /var/tmp/mut.XXXXXX)
  rsync -a --exclude .git /repo/ "$D/"
  if ! (cd "$D" && patch -p1 -s --no-backup-if-mismatch < "/verif/$d/patch.diff" >/dev/null 2>&1); then echo "$id NOAPPLY"; rm -rf "$D"; continue; fi
  out=$(/verif/bin/stackcheck -verif "$D" -repo "$D" -prop "$prop" -evidence "$D/ev.json" 2>&1)
  rc=$?
  if [ $rc -eq 1 ]; then
    echo "$id DETECTED $(echo "$out" | grep -E '\[(violated|undecided)\]' | head -1 | sed "s#$D#SCRATCH#g" | cut -c1-160)"
  else
    echo "$id MISSED"
  fi
  rm -rf "$D"
done
