#!/bin/sh
# Applies every seeded mutant to a scratch copy of /repo and runs the check of
# its property (6 at a time); prints one line per mutant:
# <id> <DETECTED|MISSED|NOAPPLY|NOCHECK> <first violation line>
cd /verif
export GOFLAGS=-mod=mod GOPROXY=off GOSUMDB=off GOTOOLCHAIN=local GOWORK=off
OUT=$(mktemp -d /var/tmp/mx.XXXXXX)
one() {
  d=$1
  id=$(basename "$d")
  prop=$(python3 -c "import json;print(json.load(open('$d/meta.json'))['property'])")
  if ! python3 -c "import json,sys;sys.exit(0 if any(c['property_id']=='$prop' for c in json.load(open('MANIFEST.json'))['checks']) else 1)"; then echo "$id NOCHECK" > "$OUT/$id"; return; fi
  D=$(mktemp -d /var/tmp/mut.XXXXXX)
  rsync -a --exclude .git /repo/ "$D/"
  if ! (cd "$D" && patch -p1 -s --no-backup-if-mismatch < "/verif/$d/patch.diff" >/dev/null 2>&1); then echo "$id NOAPPLY" > "$OUT/$id"; rm -rf "$D"; return; fi
  out=$(/verif/bin/stackcheck -verif /verif -repo "$D" -prop "$prop" -evidence "$D/ev.json" 2>&1)
  rc=$?
  if [ $rc -eq 1 ]; then
    echo "$id DETECTED $(echo "$out" | grep -E '\[(violated|undecided)\]' | grep -v 'L5 ' | grep -v '<floor>' | head -1 | sed "s#$D#SCRATCH#g" | cut -c1-160)" > "$OUT/$id"
  else
    echo "$id MISSED" > "$OUT/$id"
  fi
  rm -rf "$D"
}
N=0
for d in seeded/C*/; do
  one "${d%/}" &
  N=$((N+1)); [ $((N % 6)) -eq 0 ] && wait
done
wait
cat "$OUT"/* | sort
rm -rf "$OUT"
