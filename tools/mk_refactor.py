#!/usr/bin/env python3
# usage: tools/mk_refactor.py <name>  -- regenerates refactors/<name>.diff from the (file, old, new) edits below against the current /repo tree (scratch copies under /var/tmp/rfgen)
import sys, os, subprocess, shutil
edits = {
 "R03-setoperator-early-return": [("cond.go", '''	if op != nil && !isNilPtr(op) {
		if len(op.Context()) > 0 && len(op.String()) > 0 {
			r.op = op
		}
	}
}''', '''	if op == nil || isNilPtr(op) {
		return
	}
	if len(op.Context()) == 0 || len(op.String()) == 0 {
		return
	}
	r.op = op
}''')],
 "R04-cond-free-early-returns": [("cond.go", '''	if r.IsInit() {
		if !r.getState(ronly) {
			r.condition = nil
			return
		}
		err = errorf("%T is read-only; cannot free", r)
	}

	return
}''', '''	if !r.IsInit() {
		return
	}
	if r.getState(ronly) {
		return errorf("%T is read-only; cannot free", r)
	}
	r.condition = nil
	return
}''')],
 "R05-encapvalue-no-early-return": [("misc.go", '''	if len(enc) == 0 {
		return v
	}

	for i := len(enc); i > 0; i-- {''', '''	for i := len(enc); i > 0; i-- {''')],
 "R06-leadonce-skip-when-empty": [("stack.go", '''		if oc != list && len(str) > 0 {
			builder.WriteString(ot)
		}
		for _, val := range str {
			builder.WriteString(val)
		}''', '''		if len(str) > 0 {
			if oc != list {
				builder.WriteString(ot)
			}
			for i := 0; i < len(str); i++ {
				builder.WriteString(str[i])
			}
		}''')],
 "R07-getstringer-valid-and-nonzero": [("misc.go", '''	if v := valOf(x); !v.IsZero() {''', '''	if v := valOf(x); v.IsValid() && !v.IsZero() {''')],
 "R08-transfer-early-return": [("stack.go", '''		if s, sok := stackTypeAliasConverter(dest); sok {
			if !s.getState(ronly) {
				ok = r.transfer(s.stack)
			}
		}''', '''		s, sok := stackTypeAliasConverter(dest)
		if !sok || s.getState(ronly) {
			return
		}
		ok = r.transfer(s.stack)''')],
 "R09-isequal-cond-guard-order": [("cond.go", '''	if fn := r.condition.cfg.eqf; fn != nil {
		// use the user-authored closure assertion
		err = fn(r, o)''', '''	fn := r.condition.cfg.eqf
	if fn != nil {
		// use the user-authored closure assertion
		err = fn(r, o)''')],
}

edits["R10-reveal-guard-at-call-sites"] = [("stack.go", """	r.lock()
	defer r.unlock()

	// a read-only stack is left as it is, also
	// when it is reached through a parent.
	if r.positive(ronly) {
		return
	}

""", """	r.lock()
	defer r.unlock()

"""), ("stack.go", """			// begin new top-level reveal of inner
			// as a whole, scanning all +2 slices
			err = inner.reveal()
			updated = inner""", """			// begin new top-level reveal of inner
			// as a whole, scanning all +2 slices
			if !inner.getState(ronly) {
				err = inner.reveal()
			}
			updated = inner"""), ("stack.go", """		// Begin second pass-over before
		// return.
		err = inner.reveal()""", """		// Begin second pass-over before
		// return.
		if !inner.getState(ronly) {
			err = inner.reveal()
		}"""), ("stack.go", """				// ... recurse into said stack expression
				if err = inner.reveal(); err == nil {""", """				// ... recurse into said stack expression
				if inner.getState(ronly) {
					return
				}
				if err = inner.reveal(); err == nil {"""), ("stack.go", """			// If a stack then recurse
			err = inner.reveal()""", """			// If a stack then recurse
			if !inner.getState(ronly) {
				err = inner.reveal()
			}""")]
edits["R11-methodappend-return-on-reject"] = [("stack.go", """			if err = meth(x[i]); err != nil {
				r.setErr(err)
				break
			}
""", """			if err = meth(x[i]); err != nil {
				r.setErr(err)
				return r
			}
""")]
edits["R12-loglevel-shift-switch"] = [("log.go", """		if logLevels(ll) == logLevels(0) {
			*r = logLevels(NoLogLevels)
			break
		} else if logLevels(ll) == ^logLevels(0) {
			*r = logLevels(AllLogLevels)
			break
		}

		// Loglevel is neither "all" nor "none",
		// meaning is a singular, discrete log
		// verbosity specifier; shift it into
		// current value, don't clobber.
		if ok {
			*r |= logLevels(ll)
		}
	}

	return r""", """		if ll == NoLogLevels {
			*r = logLevels(NoLogLevels)
			return r
		}
		if ll == AllLogLevels {
			*r = logLevels(AllLogLevels)
			return r
		}

		// Loglevel is neither "all" nor "none",
		// meaning is a singular, discrete log
		// verbosity specifier; shift it into
		// current value, don't clobber.
		*r |= logLevels(ll)
	}

	return r""")]

edits["R13-marshal-gain-leq"] = [("stack.go", """			if err == nil && r.Len() == before {""", """			if after := r.Len(); err == nil && after <= before {""")]
edits["R14-unmarshal-early-return"] = [("stack.go", """func (r Stack) Unmarshal() (slice []any, err error) {
	if r.IsInit() {
		if sc, _ := r.config(); sc.umf != nil {
			// use the user-authored closure unmarshaler
			slice, err = sc.umf()
		} else {
			// use default unmarshaler
			slice, err = r.stack.unmarshalDefault()
		}
	}

	return
}""", """func (r Stack) Unmarshal() (slice []any, err error) {
	if !r.IsInit() {
		return
	}
	sc, _ := r.config()
	if sc.umf != nil {
		// use the user-authored closure unmarshaler
		return sc.umf()
	}
	// use default unmarshaler
	return r.stack.unmarshalDefault()
}""")]
edits["R15-decoder-two-step-push"] = [("stack.go", """		x = stackByWord(lab).Push(in[1:]...)""", """		x = stackByWord(lab)
		x.Push(in[1:]...)""")]
edits["R16-extract-switch"] = [("stack.go", """		if xm.IsInit() {
			c = Cond(word, op, xm)
		} else if xn.IsInit() {
			c = Cond(word, op, xn)
		}""", """		switch {
		case xm.IsInit():
			c = Cond(word, op, xm)
		case xn.IsInit():
			c = Cond(word, op, xn)
		}""")]

edits["R17-getstate-and-expression"] = [("stack.go", """func (r Stack) getState(cf cfgFlag) (state bool) {
	if r.IsInit() {
		state = r.stack.positive(cf)
	}
	return
}""", """func (r Stack) getState(cf cfgFlag) bool {
	return r.IsInit() && r.stack.positive(cf)
}""")]
edits["R18-isnesting-early-return"] = [("stack.go", """func (r Stack) IsNesting() (is bool) {
	if r.IsInit() {
		is = r.stack.isNesting()
	}
	return

}""", """func (r Stack) IsNesting() bool {
	if !r.IsInit() {
		return false
	}
	return r.stack.isNesting()
}""")]
edits["R19-stack-free-switch"] = [("stack.go", """	if r.IsInit() {
		if !r.getState(ronly) {
			r.stack = nil
			return
		}
		err = errorf("%T is read-only; cannot free", r)
	}

	return
}""", """	switch {
	case !r.IsInit():
		// nothing to free
	case r.getState(ronly):
		err = errorf("%T is read-only; cannot free", r)
	default:
		r.stack = nil
	}

	return
}""")]
edits["R20-setauxiliary-compact"] = [("stack.go", """	var _aux Auxiliary
	if len(aux) == 0 {
		_aux = make(Auxiliary, 0)
	} else {
		if aux[0] == nil {
			_aux = make(Auxiliary, 0)
		} else {
			_aux = aux[0]
		}
	}

	cfg.aux = _aux
}""", """	_aux := make(Auxiliary, 0)
	if len(aux) > 0 && aux[0] != nil {
		_aux = aux[0]
	}

	cfg.aux = _aux
}""")]
edits["R21-typ-early-return"] = [("stack.go", """	typ = r.stackType()
	kind = r.kind()
	if sym := r.getSymbol(); len(sym) > 0 {
		kind = sym
		//} else if !(typ == list || typ == basic) {
		//kind = padValue(true, kind) // TODO: make this better
	}

	return
}""", """	typ = r.stackType()
	if sym := r.getSymbol(); sym != "" {
		return sym, typ
	}
	return r.kind(), typ
}""")]
edits["R22-defragmax-compact"] = [("stack.go", """	var _m int = 50
	m = _m
	if len(max) > 0 {
		if max[0] > 0 {
			m = max[0]
		}
	}

	return
}""", """	if len(max) > 0 && max[0] > 0 {
		return max[0]
	}

	return 50
}""")]
edits["R23-index-found-flag-spelling"] = [("stack.go", """			ok = slice != nil""", """			ok = !(slice == nil)""")]

edits["R24-front-back-downward-ge-zero"] = [("stack.go", """		for i := r.Len(); i > 0; i-- {
			if slice, ok = r.Index(i - 1); ok {
				break
			}
		}
	}

	return
}

/*
Back returns""", """		for i := r.Len() - 1; i >= 0; i-- {
			if slice, ok = r.Index(i); ok {
				break
			}
		}
	}

	return
}

/*
Back returns""")]
edits["R25-isempty-one-expression"] = [("stack.go", """	if r.IsInit() {
		return r.Len() == 0
	}

	return true
}""", """	return !r.IsInit() || r.Len() == 0
}""")]
edits["R26-replace-guard-clause"] = [("stack.go", """	if r != nil {
		if ok = 0 <= i && i < r.ulen(); ok {
			(*r)[i+1] = x
		}
	}

	return
}""", """	if r == nil || i < 0 || i >= r.ulen() {
		return false
	}
	(*r)[i+1] = x

	return true
}""")]
edits["R27-reveal-nilptr-break"] = [("stack.go", """			if assert, ok := child.(Interface); ok && !isNilPtr(child) {
				if !assert.IsParen() && !inner.IsParen() {""", """			if isNilPtr(child) {
				break
			}
			if assert, ok := child.(Interface); ok {
				if !assert.IsParen() && !inner.IsParen() {""")]
edits["R28-derefptr-for-condition"] = [("misc.go", """	for {
		// only follow a pointer that actually points
		// somewhere; a nil pointer is left as it is.
		if isPtr(t) && v.Kind() == reflect.Ptr && !v.IsNil() {
			t = t.Elem()
			v = v.Elem()
			continue
		}
		break
	}""", """	// only follow a pointer that actually points
	// somewhere; a nil pointer is left as it is.
	for isPtr(t) && v.Kind() == reflect.Ptr && !v.IsNil() {
		t = t.Elem()
		v = v.Elem()
	}""")]

edits["R29-caplenequal-one-expression"] = [("misc.go", """	if c1 != 0 || c2 != 0 {
		return c1 == c2 && l1 == l2
	}
	return l1 == l2
}""", """	return c1 == c2 && l1 == l2
}""")]
edits["R30-valid-guard-clauses"] = [("stack.go", """	if r.isInit() {
		// try to see if the user provided a
		// validity function
		stk := Stack{r}
		if meth := stk.getValidityPolicy(); meth != nil {
			if err := meth(r); err != nil {
				return
			}
		}
		is = true
	}

	return
}""", """	if !r.isInit() {
		return false
	}
	// try to see if the user provided a
	// validity function
	if meth := (Stack{r}).getValidityPolicy(); meth != nil && meth(r) != nil {
		return false
	}

	return true
}""")]
edits["R31-pop-fifo-one-append"] = [("stack.go", """		idx = 1
		slice = (*r)[idx]
		pres := (*r)[idx+1:]
		(*r) = (*r)[:idx]
		*r = append(*r, pres...)""", """		idx = 1
		slice = (*r)[idx]
		*r = append((*r)[:idx], (*r)[idx+1:]...)""")]
edits["R32-isnumberprimitive-reflect-free-reorder"] = [("misc.go", """	case int, int8, int16, int32, int64,
		float32, float64, complex64, complex128,
		uint, uint8, uint16, uint32, uint64:
		return true""", """	case int, int8, int16, int32, int64:
		return true
	case uint, uint8, uint16, uint32, uint64:
		return true
	case float32, float64, complex64, complex128:
		return true""")]

edits["R33-setkeyword-helper-with-ok"] = [("cond.go", """func (r *condition) setKeyword(kw any) {
	switch tv := kw.(type) {
	case string:
		r.kw = tv
	default:
		if meth := getStringer(tv); meth != nil {
			r.kw = meth()
		}
	}
}""", """func (r *condition) setKeyword(kw any) {
	if text, ok := keywordText(kw); ok {
		r.kw = text
	}
}

/*
keywordText returns the textual form of a keyword candidate and
whether the candidate was recognised as one at all.
*/
func keywordText(kw any) (text string, ok bool) {
	switch tv := kw.(type) {
	case string:
		return tv, true
	default:
		if meth := getStringer(tv); meth != nil {
			return meth(), true
		}
	}
	return
}""")]
edits["R34-encapvalue-wrap-helper"] = [("misc.go", """			v = sl[0] + v + sl[0]
		case 2:
			// char 0 = L, char 1 = R
			v = sl[0] + v + sl[1]
		}
	}

	return v
}""", """			v = wrapText(sl[0], v, sl[0])
		case 2:
			// char 0 = L, char 1 = R
			v = wrapText(sl[0], v, sl[1])
		}
	}

	return v
}

// wrapText returns v between l and r.
func wrapText(l, v, r string) string {
	return l + v + r
}""")]
edits["R35-defrag-record-then-return"] = [("stack.go", """		r.setErr(err)
		if err == nil && last >= 0 {
			// chop off the remaining consecutive nil slices
			(*r) = (*r)[:last+1]
		}""", """		r.setErr(err)
		if err != nil {
			return
		}
		if last >= 0 {
			// chop off the remaining consecutive nil slices
			(*r) = (*r)[:last+1]
		}""")]
edits["R36-setsymbol-list-early-return"] = [("stack.go", """func (r *stack) setSymbol(c ...any) {
	var str string""", """func (r *stack) setSymbol(c ...any) {
	if cfg, _ := r.config(); cfg.typ == list {
		return
	}
	var str string""")]
name = sys.argv[1]
os.makedirs("/var/tmp/rfgen", exist_ok=True)
A, B = "/var/tmp/rfgen/a", "/var/tmp/rfgen/b"
for d in (A, B):
    shutil.rmtree(d, ignore_errors=True)
    subprocess.check_call(["rsync", "-a", "--exclude", ".git", "/repo/", d + "/"])
files = set()
for f, old, new in edits[name]:
    p = os.path.join(B, f)
    s = open(p).read()
    assert s.count(old) == 1, (name, f, s.count(old))
    open(p, "w").write(s.replace(old, new))
    files.add(f)
out = ""
for f in sorted(files):
    r = subprocess.run(["diff", "-u", "a/" + f, "b/" + f], cwd="/var/tmp/rfgen", capture_output=True, text=True)
    lines = r.stdout.splitlines(keepends=True)
    lines[0] = "--- a/%s\n" % f
    lines[1] = "+++ b/%s\n" % f
    out += "".join(lines)
open("/verif/refactors/%s.diff" % name, "w").write(out)
for d in (A, B):
    shutil.rmtree(d, ignore_errors=True)
print(name, "ok")
