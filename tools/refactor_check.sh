#!/bin/sh
# usage: tools/refactor_check.sh [refactors/Rxx.diff ...]
# Applies each behaviour-preserving refactor of /repo kept under refactors/ to a
# scratch copy, makes sure it builds and the suite passes, and runs all 20
# checks on it: every check must stay silent (a report here is a false alarm).
cd /verif
export GOFLAGS=-mod=mod GOPROXY=off GOSUMDB=off GOTOOLCHAIN=local GOWORK=off
[ $# -eq 0 ] && set -- refactors/*.diff
RC=0
for P in "$@"; do
  D=$(mktemp -d /var/tmp/rfc.XXXXXX)
  rsync -a --exclude .git /repo/ "$D/"
  if ! (cd "$D" && patch -p1 -s --no-backup-if-mismatch < "/verif/$P"); then echo "$P NOAPPLY"; rm -rf "$D"; RC=1; continue; fi
  if ! (cd "$D" && go build ./... && go test -vet=off -count=1 ./... >/dev/null 2>&1); then echo "$P SUITE-FAILS"; rm -rf "$D"; RC=1; continue; fi
  printf '%s\n' C01 C02 C03 C04 C05 C06 C07 C08 C09 C10 C11 C12 C13 C14 C15 C16 C17 C18 C19 C20 | \
    xargs -P 5 -I{} sh -c '${STACKCHECK:-/verif/bin/stackcheck} -verif /verif -repo "$0" -prop {} -evidence "$0/ev-{}.json" > "$0/out-{}.txt" 2>&1; echo $? > "$0/rc-{}.txt"' "$D"
  bad=""
  for p in C01 C02 C03 C04 C05 C06 C07 C08 C09 C10 C11 C12 C13 C14 C15 C16 C17 C18 C19 C20; do
    if [ "$(cat $D/rc-$p.txt)" != "0" ]; then bad="$bad $p"; grep -E '\[(violated|undecided)\]' "$D/out-$p.txt" | head -3 | cut -c1-300 | sed "s#^#   $p: #"; fi
  done
  if [ -z "$bad" ]; then echo "$P silent on all 20"; else echo "$P FALSE-ALARM:$bad"; RC=1; fi
  rm -rf "$D"
done
exit $RC
