#!/usr/bin/env python3
"""Generates /verif/MANIFEST.json from the table below (one entry per property).
Run after changing which properties are claimed."""
import json, os, sys
HERE = os.path.dirname(os.path.dirname(os.path.abspath(__file__)))
BASE = json.load(open('/root/.vp/BASELINE.json'))

CHECKS = {
 # id: (level, technique, design_ref, level text, level note)
 "C09": ("proof", "interprocedural effect analysis + path-sensitive guard dominance (go/ssa)", "DESIGN.md §3 R-RO/R-MASK/R-FLAGS, §4 C09",
   "Every store/append/map-update/lock call rooted at the receiver and reachable from any exported Stack/Condition method (enumerated from go/types each run) is proved to be dominated by the false edge of the read-only test, with exactly the exemptions of the statement; the bit helpers are proved to touch one bit only; Free is proved to return a non-nil error when the flag is set. The whole property is an effect statement, so a sound effect analysis is a proof of it for all inputs and histories.",
   "Trusted: go/types+go/ssa lowering, the root tracing of checker/effects.go (unknown roots fail), absence of unsafe/reflect.Set (re-checked), sequential execution. Not covered: user closures / String() / Operator code, mutation of a nested read-only object through a writable parent, contents of the user-owned Auxiliary map."),
 "C11": ("proof", "interprocedural effect (write-set) analysis + return-provenance (freshness) analysis (go/ssa)", "DESIGN.md §3 R-PURE/R-FRESH/R-NONDET, §4 C11",
   "For every exported query method (names of the statement, all Is*/Can* methods, plain getters; enumerated from go/types each run) the transitive write set over all in-package callees is proved empty on every non-fresh object, returned slices/maps are proved to be allocated during the call, and no nondeterministic source is reachable. With no write to shared memory, repeated and concurrent queries cannot interfere or race; this is a proof of the property for all inputs and schedules of queries.",
   "Trusted: go/ssa lowering, root tracing, a purity table for the standard-library functions used. Not covered: user closures/String() methods called by queries (listed as USER edges), stdlib-internal synchronisation, query-vs-mutator races (C10)."),

 "C01": ("other", "symbolic sequence algebra over go/ssa (header values as concatenations of segments of the header found + single values) compared with list-operation specifications by linear entailment; loop-shape recognisers with inductive linear invariants (conserved sum, counting) for Reverse/Remove/Push; slot-0 provenance; wrapper argument/result forwarding", "DESIGN.md §3 R-SEQ/R-SLOT0, §4 C01",
   "Every mutator (pop, insert, reset, replace, swap, reverse, remove, both push loops) is proved, for all inputs, to perform exactly the list operation the property names on the header it finds - which element is removed/returned under LIFO and FIFO, where Insert lands (clamped), which slots Swap/Replace touch, that Reverse exchanges all and only mirror pairs, that Remove keeps every slot but the addressed one in order, that Push appends in argument order - and stack.index is proved to translate positions exactly (i -> slot i+1, -k -> len-k, oversize -> last). The configuration slot can never be lost, moved or overwritten. By induction over a history, the content is that of the ordered list.",
   "Level other: hand-written recognisers and specifications; Front/Back's nil-skipping scan, success flags for nil elements, capacity (C03) and concurrency (C10) are outside."),
 "C02": ("other", "value-flow and path-fact checks on the rendering functions (receiver provenance of kind/symbol/rendering readings, guard facts at the NOT-prefix concatenation, gated appends feeding the assembler, rune-wise copy in the blank condenser, loop direction of the encapsulation, parenthesis decision table) on go/ssa", "DESIGN.md §3 R-UTF8/R-FLAGS/R-TT, §4 C02",
   "A nested stack is rendered through its own kind/symbol/case and an empty one contributes nothing (no dangling NOT); renderings that are empty never reach the join; leaf text is copied rune by rune with only blank/tab runs condensed; encapsulation pairs are applied so that the first is outermost; parentheses iff parenthetical and not BASIC.",
   "Necessary conditions (level other): equality with the canonical rendering over all trees and option combinations is not decided."),
 "C03": ("other", "inductive invariant over all slice-header stores of the package (enumerated from go/ssa): slot-0 provenance analysis + linear-arithmetic entailment (Fourier-Motzkin) of len <= capacity from path guards under the induction hypothesis; who-may-write check on the capacity word; return-case equations for the observers", "DESIGN.md §3 R-CAP/R-CAPEQ/R-SLOT0, §4 C03",
   "INV: capacity word == 0 or len(header) <= capacity word, for every header any stack ever holds. Base: newStack (word = request+1, backing array made with it). Frame: the word is written nowhere else, slot 0 always keeps the same configuration (provenance of every stored header; element stores/bulk copies use slots >= 1). Step: each of the 10 header stores of the package keeps INV on every path (linear entailment from isFull()==false on the very header extended / Insert's guard). Observers Len/Cap/Avail/IsFull/isFull are proved equal to their linear forms, which gives Cap()==k, Avail()==k-Len(), IsFull()==(Len()==k), -1/-1/false without capacity, and Len() <= k for all sequential histories of any calls.",
   "Level other: hand-written domains; which surplus values are dropped (order) is not decided; Defrag's truncation inherits the range assumption of C08; concurrency is C10."),
 "C19": ("other", "value-provenance check of the two element stores of the compaction step, linear entailment at the loop exits, guard facts at the compaction/truncation/error sites, call-path checks of the nested recursion (go/ssa)", "DESIGN.md §3 R-PROV, §4 C19, §8",
   "Narrow necessary conditions only: the compaction step moves a non-nil slot forward and clears exactly its source; the scan ends only at the limit or past the last slot; nothing is touched unless a gap was found; the recorded error is the verifier's verdict and truncation requires a nil verdict; nested Stacks (also inside Conditions, through the converters) are visited with the same limit; the limit is positive.",
   "THE CORE IS NOT DECIDED (exact survivors, Len, Err). The pinned tree is known from independent exhaustive testing to violate it for most nil patterns; a pinned test depends on the faulty length, so it could not be repaired; see DESIGN.md §8."),
 "C20": ("other", "effect (write-set) analysis of Reveal's call-graph scope + value-provenance check of the single slot store and the single expression store with path facts + allocation census + lock re-entrancy analysis over held regions (CFG reachability, parameter-rooted lock summaries) + panic-site census restricted to the scope (go/ssa)", "DESIGN.md §3 R-PROV/R-LOCK, §4 C20",
   "Reveal's transitive write set contains no header store, configuration write or append (no stack changes length, kind or flags); its only slot store re-stores the stack found at that index or hoists its only child exactly under the stated condition (non-NOT, one element, Stack/Condition child, neither parenthetical); its only expression store returns the Condition's own expression stack; nothing is constructed (depth cannot grow); no held lock is re-acquired (no self-deadlock); no panic site in the scope.",
   "Necessary conditions (level other): equality of the leaf sequence and of the fully-unwrapped forms over all trees is not decided."),
 "C07": ("other", "path-argument flow check over the recursive group (who receives indices, indices[1:], indices[0]) + exact return-path decision tables per level compared with stepwise descent + panic-site census restricted to Traverse's scope (go/ssa)", "DESIGN.md §3 R-LEVEL/R-TT, §4 C07",
   "Each level consumes exactly one path element (only traverse reads indices[0]; only the one recursive descent gets indices[1:]; nothing loops over the path), and each of the four functions' return paths equals the stepwise-descent table: element found and non-nil or (nil,false); Stack/alias and Condition-with-Stack-expression descend, a leaf or non-descendable value with elements left yields (nil,false), the end of the path yields (value,true); empty path and uninitialised receiver yield (nil,false). By induction on the path length Traverse equals stepwise Index descent. No panic site in the scope.",
   "Level other: decision tables hand-written; alias recognition is C12's subject."),
 "C08": ("other", "whole-package panic-site census: index/slice bounds discharged by linear integer entailment (Fourier-Motzkin over path facts with overflow-aware arithmetic atoms, inductive loop bounds, by-case inlining of length helpers, interprocedural preconditions); nil/reflect/type-assertion/division sites discharged by path-sensitive facts (go/ssa)", "DESIGN.md §3 R-BND/R-NIL/R-REFL/R-CANIF/R-TA/R-DIV, §4 C08",
   "Every instruction of the package that can panic on an argument value - index, slice and string-index expressions (about 110 non-trivial sites), nil dereferences (about 1460), panicking reflect.Value calls, unchecked type assertions, integer divisions - is proved safe on every path for unconstrained 64-bit integers (sums/differences are related to their operands only where overflow is excluded, so MinInt/MaxInt are covered) and arbitrary element values (typed nils of any depth, zero Stacks/Conditions, zero reflect.Values, unexported struct fields), or turned into a precondition checked at every call site; exported entry points may require nothing. Element writes and user-visible element reads on a stack need index >= 1, so the configuration slot cannot be written or returned through any index, and no element write is reachable with an out-of-range index.",
   "Level other: the census is close to a proof of panic freedom but the domains are hand-written. One site assumed (Defrag's truncation index; DESIGN.md). '-k addresses the k-th from the end' is decided only as the proved result range of the index translation; panics inside user closures/String() methods and runtime panics (out of memory, stack overflow through self-containing stacks) are excluded."),
 "C04": ("other", "table extraction and agreement checks between writer and reader (kind/word/constructor round trip, label comparisons, CONDITION row positions) + loop-shape and carried-value checks of the emit loop and the re-processing loop (go/ssa, path-sensitive states)", "DESIGN.md §3 R-TBL, §4 C04",
   "Writer and reader agree on labels (case-insensitively), on the kind/word/constructor table, on the CONDITION row (width and field positions); the writer emits the label and exactly one entry per slot in order (nil slots included, nested instances through the converters); the reader re-processes every nested slice and replaces it in place by what it decoded from that very slice.",
   "Necessary conditions (level other): round-trip equality over trees is not decided."),
 "C05": ("other", "loop-latch analysis of the error variable in every comparison loop (path-sensitive states at each comparison call), counter/bound/accessor shape checks, nil-return-only-after-clean-comparisons check, component-coverage check on accepting paths, reflect-method classification + panic-site census restricted to IsEqual's scope (go/ssa)", "DESIGN.md §3 R-LOOPRET/R-COVER/R-REFL, §4 C05",
   "In every comparison loop a recorded difference cannot be overwritten or dropped (comparisons run only while the error variable is nil; the function returns it), every index from 0 to the length is compared at the same position on both sides and the loop cannot be left early without a difference; no equality function returns nil after a comparison reported a difference; keyword, operator (text+context or both absent), expression, length/capacity, kind and every element take part on accepting paths; comparing cannot panic (typed nils, zero Values, unexported fields, missing keys; every reflect method used is classified).",
   "Necessary conditions (level other); symmetry and per-kind completeness not decided; the []Stack-leaf gap is documented, not decided."),
 "C06": ("other", "truth-table extraction from path-sensitive return summaries + guarded-store (must-pass-through) analysis + nil/reflect panic-site census (go/ssa)", "DESIGN.md §3 R-TT/R-STOREGUARD/R-NIL, §4 C06",
   "Decides exactly the finite parts of C06: Condition.Valid's return paths are compared row by row (48 feasible rows) with the table the property states; the expression filter and the parenthesis/padding polarity of condition.string likewise; keyword/operator/expression are proved to be written only by their setters and only after the acceptance test, so a rejected argument leaves the previous value; Cond records Valid()'s verdict; String() renders only when Valid()==nil; no setter/constructor can panic on nil, empty or wrongly typed arguments (census of nil/reflect panic sites in their reachable code).",
   "Necessary conditions only (level other). Not covered: the exact rendered text (string-valued functional correctness), user Operator/Stringer code. Trusted: go/ssa lowering, the fact engine and its summaries (checker/engine.go), the rule tables."),
 "C10": ("other", "lock-discipline analysis on go/ssa: held regions by CFG reachability and dominance, interprocedural 'all callers hold the lock' contexts, parameter-rooted lock summaries for re-entrancy, lock/unlock pairing, ordering of bookkeeping stores around the sync.Mutex calls; plus re-proof of the capacity, slot-0 and list-operation obligations in a concurrent mode of the fact engine in which acquiring a lock invalidates all facts about shared memory", "DESIGN.md §3 R-LOCK, §4 C10",
   "Every content write of the eight mutators happens under the written stack's lock; nothing is read or validated before the acquisition and the guards of each write still hold when facts are forgotten at lock() (capacity never exceeded, configuration slot never popped/removed, list operations exact inside one critical section); bookkeeping is written inside the mutex window; no lock is re-acquired while held and none leaks on any return path. The unlocked reads of the configuration slot by the exported wrappers and by lock() itself are genuine races and are reported as known findings (design level: the mutex is stored inside the data it protects).",
   "Necessary conditions (level other): linearizability and overall race freedom quantify over schedules and are not decided; 9 known findings (L5)."),
 "C12": ("other", "census of type assertions to the native types (who may recognise a Stack/Condition without the converter) + must-consult table over the consumers + path facts 'both converters declined this value' before generic rendering + justification of every declining return path of the converters (go/ssa)", "DESIGN.md §3 R-CONV, §4 C12",
   "No code outside the converters tells a Stack/Condition by a plain type assertion (3 audited positive fast paths excepted); every consumer named by the property consults the converter(s); generic rendering happens only after both converters declined the very value; equality compares the converted instances; the converters decline only nil, zero instances and types not convertible after following pointers.",
   "Necessary conditions (level other): equality of results with the native tree is not decided."),
 "C13": ("other", "truth-table extraction (finite predicate abstraction on the CFG) + per-iteration gate analysis of the append loops + write-set analysis (go/ssa)", "DESIGN.md §3 R-TT/R-APPEND, §4 C13",
   "The acceptance decision at push time, both CanNest getters and the Condition-side filter are loop-free Boolean functions: their return paths are enumerated and compared with the table the property states (decided exactly). The append in the per-value loop is proved to be gated by the verdict on that very value and by a fullness test made after the previous write; switching the option is proved to write the option word only.",
   "Level other: custom push policies bypass the option by design. IsNesting's scan is decided by R-SCAN (order, per-slot verdict, continue-only-while-false). Trusted: go/ssa lowering, fact engine, rule tables."),
 "C14": ("other", "dispatch/path enumeration over closure slots + setter who-writes-what + loop gate analysis (go/ssa)", "DESIGN.md §3 R-DISPATCH/R-STOREGUARD, §4 C14",
   "For each closure slot the dispatcher's return paths are enumerated: closure invoked iff installed, built-in code not run on that path, the closure's own result returned, built-in code run when the slot is nil; each setter stores its argument into exactly its slot; the policy-gated append consults the policy only while room remains, once per iteration, appends only the approved value, and a rejection records the policy's error and ends the batch; BASIC stacks refuse a presentation policy with an error and rendering is gated by canString (table checked).",
   "Structural necessary conditions (level other): 'once per offered value' is one call site in the per-value loop, not a runtime count; closure bodies are opaque."),
 "C15": ("other", "effect (write-set) analysis rooted at the source + guard facts at the worker call + linear entailment of the free-slot condition at the push + copy-loop shape and verdict-expression checks + scoped panic-site census (go/ssa)", "DESIGN.md §3 R-XFER, §4 C15",
   "Transfer writes nothing rooted at the source and never pushes when destination == source; the worker runs only for an initialised source and a convertible, writable destination (flag read from the destination); nothing is pushed unless the elements fit the destination's free slots; the loop copies src.index(0..Len-1), nil elements included, one per iteration; success is exactly 'the destination grew by Len(src)'; no destination value can panic.",
   "Level other: order of the copied elements in the destination follows from C01's push rule, not restated here."),
 "C16": ("other", "panic-site census (nil, type assertion, bounds, reflect) restricted to Marshal's scope with interprocedural preconditions + outcome analysis of every return path of marshalDefault / extractConditionValues / Marshal (error, constructor-built Stack, vouched Condition, seated handle) + label and row table checks (go/ssa)", "DESIGN.md §3 R-BND/R-TBL, §4 C16",
   "No []any input can panic Marshal (every index, re-slice and assertion in its scope is guarded for all shapes); every return path ends in a non-nil error or an initialised receiver, an initialised receiver gains at most one element; labels are honoured case-insensitively, an unrecognised first element yields a BASIC stack of all entries.",
   "Level other; behaviour of the resulting stack under String/Unmarshal/IsEqual is covered by C08's census."),
 "C17": ("other", "whole-package census of nil-dereference and reflect panic sites discharged by path-sensitive facts, relational summaries and (conditional) interprocedural preconditions; re-analysis under a nil handle for zero results (go/ssa)", "DESIGN.md §3 R-INIT/R-NIL/R-REFL/R-HANDLE, §4 C17",
   "Every nil-panic-capable instruction (about 1460) and every panicking reflect.Value call of the package is discharged on every path or turned into a precondition checked at all call sites; exported methods may require nothing of their receiver, so zero-valued and freed instances cannot panic. Only Free/Marshal/Init can write a handle (type-level + effect check). Each exported value-receiver method is re-analysed assuming a nil embedded pointer: all return paths yield the zero answer (documented exceptions listed). Reset's reachable code has no branch on an element being nil and writes only content.",
   "Level other (a census with discharge is close to a proof of nil/reflect panic freedom, but the domains are hand-written). Assumes the pointer receiver of the four pointer-receiver methods is non-nil; user closures excluded; index-range panics belong to C08."),
 "C18": ("other", "constant/table extraction + operator-identity checks + truth tables + guarded-store and value-flow (setter/getter field) analysis (go/types, go/ssa)", "DESIGN.md §3 R-FLAGS/R-MASK/R-TT/R-LATCH/R-PAIR/R-STOREGUARD/R-TBL, §4 C18",
   "Option bits distinct; mask helpers exact; the tri-state setter matches the prescribed table on both types; getters have the stated polarity; every public switch drives the option its name says with Stack/Condition agreeing and writes nothing but the option word; FIFO is a one-way latch; setter/getter pairs share one field; delimiter/symbol stores are gated by the (immutable) kind; duplicate encapsulation characters are refused before the append; log levels merge with exactly |= and &^=, shortcuts guarded, name tables mutually inverse.",
   "Level other: 'reflected in String()' (symbol, encapsulation, lead-once/fold polarity inside the rendering loop) is not decided."),
}

NA = {
}
PENDING = "check not yet implemented in this round (see DESIGN.md §4 for the planned static rules); not claimed until it runs"

def main():
    props = [json.loads(l)["id"] for l in open(os.path.join(HERE, "properties.jsonl"))]
    checks = []
    na = []
    for pid in props:
        if pid in CHECKS:
            level, tech, ref, text, note = CHECKS[pid]
            checks.append({
                "property_id": pid,
                "quick_cmd": "./run.sh %s quick" % pid,
                "thorough_cmd": "./run.sh %s thorough" % pid,
                "evidence_file": "/verif/evidence/%s.json" % pid,
                "replay_cmd_template": "cat {path}",
                "engine": "stackcheck",
                "level_claimed": {"category": level, "text": text, "design_ref": ref},
                "level_note": note,
                "technique": tech,
            })
        else:
            na.append({"property_id": pid, "reason": NA.get(pid, PENDING)})
    m = {
        "version": 1,
        "setup_cmd": "cd /verif/checker && GOFLAGS=-mod=mod GOPROXY=off GOSUMDB=off GOTOOLCHAIN=local GOWORK=off go build -o /verif/bin/stackcheck .",
        "hooks": {
            "guard": "verif",
            "enable": "none: the analysis reads /repo's sources (go/packages, no build tags); no instrumentation exists",
            "baseline_off_cmd": "cd /repo && GOFLAGS=-mod=mod GOPROXY=off GOSUMDB=off GOTOOLCHAIN=local go test -json -vet=off -count=1 -timeout 25m ./...",
            "source_commits": [],
            "add_only": True,
        },
        "engines": [{
            "name": "stackcheck",
            "path": "/verif/checker",
            "serves_properties": sorted(CHECKS.keys()),
            "kind_free_text": "repository-specific static analyser over go/packages + go/ssa (x/tools v0.29.0): parameter-rooted effect summaries, forward path-sensitive DNF guard facts with relational callee summaries, nil/reflect typestate, table and sibling agreement rules",
        }],
        "checks": checks,
        "not_applicable": na,
        "notes": "All checks are static: they load and type-check /repo's working tree on every run and never execute it. Known findings: /verif/known_findings.jsonl. Seeded mutants used to validate the checks: /verif/seeded/.",
    }
    json.dump(m, open(os.path.join(HERE, "MANIFEST.json"), "w"), indent=1)
    print("claimed:", sorted(CHECKS.keys()), "n/a:", len(na))

if __name__ == "__main__":
    main()
