#!/usr/bin/env python3
"""Generates /verif/MANIFEST.json from the table below (one entry per property).
Run after changing which properties are claimed."""
import json, os, sys
HERE = os.path.dirname(os.path.dirname(os.path.abspath(__file__)))
BASE = json.load(open('/root/.vp/BASELINE.json'))

CHECKS = {
 # id: (level, technique, design_ref, level text, level note)
 "C09": ("proof", "interprocedural effect analysis + path-sensitive guard dominance (go/ssa)", "DESIGN.md §3 R-RO/R-MASK/R-FLAGS, §4 C09",
   "Every store/append/map-update/lock call rooted at the receiver and reachable from any exported Stack/Condition method (enumerated from go/types each run) is proved to be dominated by the false edge of the read-only test, with exactly the exemptions of the statement; the bit helpers are proved to touch one bit only; Free is proved to return a non-nil error when the flag is set. The whole property is an effect statement, so a sound effect analysis is a proof of it for all inputs and histories.",
   "Trusted: go/types+go/ssa lowering, the root tracing of checker/effects.go (unknown roots fail), absence of unsafe/reflect.Set (re-checked), sequential execution. Not covered: user closures / String() / Operator code, mutation of a nested read-only object through a writable parent, contents of the user-owned Auxiliary map."),
 "C11": ("proof", "interprocedural effect (write-set) analysis + return-provenance (freshness) analysis (go/ssa)", "DESIGN.md §3 R-PURE/R-FRESH/R-NONDET, §4 C11",
   "For every exported query method (names of the statement, all Is*/Can* methods, plain getters; enumerated from go/types each run) the transitive write set over all in-package callees is proved empty on every non-fresh object, returned slices/maps are proved to be allocated during the call, and no nondeterministic source is reachable. With no write to shared memory, repeated and concurrent queries cannot interfere or race; this is a proof of the property for all inputs and schedules of queries.",
   "Trusted: go/ssa lowering, root tracing, a purity table for the standard-library functions used. Not covered: user closures/String() methods called by queries (listed as USER edges), stdlib-internal synchronisation, query-vs-mutator races (C10)."),
}

NA = {
}
PENDING = "check not yet implemented in this round (see DESIGN.md §4 for the planned static rules); not claimed until it runs"

def main():
    props = [json.loads(l)["id"] for l in open(os.path.join(HERE, "properties.jsonl"))]
    checks = []
    na = []
    for pid in props:
        if pid in CHECKS:
            level, tech, ref, text, note = CHECKS[pid]
            checks.append({
                "property_id": pid,
                "quick_cmd": "./run.sh %s quick" % pid,
                "thorough_cmd": "./run.sh %s thorough" % pid,
                "evidence_file": "/verif/evidence/%s.json" % pid,
                "replay_cmd_template": "cat {path}",
                "engine": "stackcheck",
                "level_claimed": {"category": level, "text": text, "design_ref": ref},
                "level_note": note,
                "technique": tech,
            })
        else:
            na.append({"property_id": pid, "reason": NA.get(pid, PENDING)})
    m = {
        "version": 1,
        "setup_cmd": "cd /verif/checker && GOFLAGS=-mod=mod GOPROXY=off GOSUMDB=off GOTOOLCHAIN=local GOWORK=off go build -o /verif/bin/stackcheck .",
        "hooks": {
            "guard": "verif",
            "enable": "none: the analysis reads /repo's sources (go/packages, no build tags); no instrumentation exists",
            "baseline_off_cmd": "cd /repo && GOFLAGS=-mod=mod GOPROXY=off GOSUMDB=off GOTOOLCHAIN=local go test -json -vet=off -count=1 -timeout 25m ./...",
            "source_commits": [],
            "add_only": True,
        },
        "engines": [{
            "name": "stackcheck",
            "path": "/verif/checker",
            "serves_properties": sorted(CHECKS.keys()),
            "kind_free_text": "repository-specific static analyser over go/packages + go/ssa (x/tools v0.29.0): parameter-rooted effect summaries, forward path-sensitive DNF guard facts with relational callee summaries, nil/reflect typestate, table and sibling agreement rules",
        }],
        "checks": checks,
        "not_applicable": na,
        "notes": "All checks are static: they load and type-check /repo's working tree on every run and never execute it. Known findings: /verif/known_findings.jsonl. Seeded mutants used to validate the checks: /verif/seeded/.",
    }
    json.dump(m, open(os.path.join(HERE, "MANIFEST.json"), "w"), indent=1)
    print("claimed:", sorted(CHECKS.keys()), "n/a:", len(na))

if __name__ == "__main__":
    main()
